"""Fail-closed translator (T-alg with index selectors) for the _response methods of pymoto/modules/linalg.py:
SystemOfEquations, StaticCondensation, LinSolve (solve call only), Inverse.

Reading:
  A[self.f, :][:, self.p]  /  A[self.f, ...][..., self.m]      ->  (Df * A * Dp)   block, embedded in the full ring
  arr = zeros; arr[self.p, ...] = v; arr[self.f, ...] = w       ->  v + w           (disjoint index sets)
  bf, xp (compact vectors on f / p)                             ->  Bf, Xp          (embedded, supported on f / p)
  inner module:  sig_in[0].state = Mat; sig_in[1].state = rhs; response(); y = sig_out[0].state
                                                                ->  y = solve_ff rhs, and Mat is emitted separately
  X.toarray() if hasattr(X, 'toarray') else np.asarray(X)       ->  X               (storage conversion)
Local names are substituted, so renaming locals does not change the generated terms.

gen_lindtype (T-dtype, class DtEmitter): the SAME statements read over dtype tags (Model/LinDtype.v):
  np.zeros(shape, dtype=E) / np.zeros_like(Y[, dtype=E])          ->  the dtype the buffer is allocated with
  np.result_type(a.dtype, ..., float)                             ->  rt (rt a ...) DFloat
  buf[self.p, ...] = v                                            ->  a store of dtype(v) into buf (listed in program order)
  M @ v, a + b, a - b -> rt;  A[rows][:, cols], toarray/asarray   ->  dtype unchanged;  inner LinSolve -> sol dM drhs
An allocation whose dtype depends on a run-time test (IfExp) is refused (fail-closed).
"""
import ast, os
from py2coq import Unsupported, parse_file, find_class, find_func
from gen_C05 import norm, HEADER

SEL = {'f': 'Df', 'p': 'Dp', 'm': 'Dm'}


class ModEmitter:
    def __init__(self, env):
        self.env = dict(env)        # python name / 'self.attr' -> Coq term
        self.arrays = {}            # name -> list of (selector, term)  (zero-initialised arrays being filled)
        self.inner_mat = None
        self.inner_rhs = None
        self.inner_called = False

    def fail(self, n, why=''):
        raise Unsupported(f'T-alg(C07): unsupported {type(n).__name__} {why}: {ast.unparse(n)[:140]}')

    @staticmethod
    def sel_of(n):
        """self.f -> 'Df'"""
        if isinstance(n, ast.Attribute) and isinstance(n.value, ast.Name) and n.value.id == 'self' and n.attr in SEL:
            return SEL[n.attr]
        return None

    def block_parts(self, n):
        """A[self.f, :][:, self.p] or A[self.f, ...][..., self.m]  ->  (row selector, matrix expression, column selector)"""
        if not (isinstance(n, ast.Subscript) and isinstance(n.value, ast.Subscript)):
            return None
        outer, inner = n, n.value
        if not (isinstance(outer.slice, ast.Tuple) and len(outer.slice.elts) == 2 and
                isinstance(inner.slice, ast.Tuple) and len(inner.slice.elts) == 2):
            return None
        full = (':', '...', 'slice(None, None, None)', 'Ellipsis')
        r, rr = inner.slice.elts
        cc, c = outer.slice.elts
        if ast.unparse(rr) not in full or ast.unparse(cc) not in full:
            return None
        rs, cs = self.sel_of(r), self.sel_of(c)
        if rs is None or cs is None:
            return None
        return rs, inner.value, cs

    def block_of(self, n):
        parts = self.block_parts(n)
        if parts is None:
            return None
        rs, mat, cs = parts
        return f'({rs} * {self.tr(mat)} * {cs})'

    def binop(self, op, left, right):
        return f'({left} {op} {right})'

    def inner_result(self):
        return f'(solve_ff {self.inner_rhs})'

    def on_zeros(self, name, v):
        """a zero-initialised array starts being filled (the dtype pass reads its dtype here)"""

    def tr(self, n):
        key = ast.unparse(n)
        if key in self.env:
            return self.env[key]
        if isinstance(n, ast.Name):
            if n.id in self.arrays:
                return self.array_term(n.id)
            self.fail(n, 'unbound name')
        if isinstance(n, ast.Attribute) and key in self.arrays:
            return self.array_term(key)
        b = self.block_of(n)
        if b is not None:
            return b
        if isinstance(n, ast.BinOp):
            ops = {ast.MatMult: '*', ast.Add: '+', ast.Sub: '-'}
            if type(n.op) in ops:
                return self.binop(ops[type(n.op)], self.tr(n.left), self.tr(n.right))
            self.fail(n, 'operator')
        if isinstance(n, ast.IfExp):
            # storage conversion: X.toarray() if hasattr(X, 'toarray') else np.asarray(X)
            t = n.test
            if isinstance(t, ast.Call) and ast.unparse(t.func) == 'hasattr' and len(t.args) == 2 and \
                    ast.unparse(t.args[1]) == "'toarray'":
                x = ast.unparse(t.args[0])
                if ast.unparse(n.body) == f'{x}.toarray()' and ast.unparse(n.orelse) == f'np.asarray({x})':
                    return self.tr(t.args[0])
            self.fail(n, 'conditional expression')
        self.fail(n)

    def array_term(self, name):
        parts = self.arrays[name]
        if not parts:
            self.fail(ast.parse(name), 'zero array used before being filled')
        t = parts[0][1]
        for _, p in parts[1:]:
            t = f'({t} + {p})'
        return t

    @staticmethod
    def is_zeros(v):
        if isinstance(v, ast.Call) and ast.unparse(v.func) in ('np.zeros', 'np.zeros_like'):
            return True
        if isinstance(v, ast.IfExp):
            return ModEmitter.is_zeros(v.body) and ModEmitter.is_zeros(v.orelse)
        return False

    def stmt(self, s, skip=()):
        src = ast.unparse(s)
        if isinstance(s, ast.Expr) and isinstance(s.value, ast.Constant):
            return None
        if any(src == norm(k) for k in skip):
            return None
        if isinstance(s, ast.Assert):
            return None
        if src == 'self.module_LinSolve.response()':
            if self.inner_mat is None or self.inner_rhs is None or self.inner_called:
                self.fail(s, 'inner LinSolve protocol')
            self.inner_called = True
            return None
        if isinstance(s, ast.Assign) and len(s.targets) == 1:
            t, v = s.targets[0], s.value
            ts = ast.unparse(t)
            if ts == 'self.module_LinSolve.sig_in[0].state':
                self.inner_mat = self.tr(v)
                return None
            if ts == 'self.module_LinSolve.sig_in[1].state':
                self.inner_rhs = self.tr(v)
                return None
            if ast.unparse(v) == 'self.module_LinSolve.sig_out[0].state':
                if not self.inner_called:
                    self.fail(s, 'inner result read before response()')
                self.env[ts] = self.inner_result()
                return None
            if isinstance(t, (ast.Name, ast.Attribute)):
                if self.is_zeros(v):
                    self.arrays[ts] = []
                    self.on_zeros(ts, v)
                    self.env.pop(ts, None)
                else:
                    self.env[ts] = self.tr(v)
                    self.arrays.pop(ts, None)
                return None
            if isinstance(t, ast.Subscript) and ast.unparse(t.value) in self.arrays:
                sl = t.slice
                if isinstance(sl, ast.Tuple) and len(sl.elts) == 2 and ast.unparse(sl.elts[1]) in ('...', 'Ellipsis'):
                    sel = self.sel_of(sl.elts[0])
                    name = ast.unparse(t.value)
                    if sel and sel not in [q for q, _ in self.arrays[name]]:
                        self.arrays[name].append((sel, self.tr(v)))
                        return None
                self.fail(s, 'scatter')
            self.fail(s, 'assignment')
        if isinstance(s, ast.Return):
            v = s.value
            if isinstance(v, ast.Tuple):
                return [self.tr(e) for e in v.elts]
            return [self.tr(v)]
        self.fail(s, 'statement')


class DtEmitter(ModEmitter):
    """T-dtype: the same statements read over dtype tags (Model/LinDtype.v): every expression -> its numpy dtype,
    every zero-initialised array -> (dtype it is allocated with, dtypes of the values stored into it)."""
    TYPES = {'float': 'DFloat', 'complex': 'DComplex', 'int': 'DInt', 'bool': 'DBool',
             'np.float64': 'DFloat', 'np.complex128': 'DComplex', 'np.int64': 'DInt', 'np.bool_': 'DBool'}

    def __init__(self, env):
        super().__init__(env)
        self.bufs = {}
        self.ret_keys = None

    def block_of(self, n):
        parts = self.block_parts(n)
        return None if parts is None else self.tr(parts[1])

    def binop(self, op, left, right):
        return f'(rt {left} {right})'

    def inner_result(self):
        return f'(sol {self.inner_mat} {self.inner_rhs})'

    def array_term(self, name):
        return self.bufs[name]

    def dt_expr(self, e):
        """an expression in dtype position"""
        src = ast.unparse(e)
        if src in self.TYPES:
            return self.TYPES[src]
        if isinstance(e, ast.Attribute) and e.attr == 'dtype':
            return self.tr(e.value)
        if isinstance(e, ast.Call) and ast.unparse(e.func) == 'np.result_type' and e.args and not e.keywords:
            t = self.dt_expr(e.args[0])
            for a in e.args[1:]:
                t = f'(rt {t} {self.dt_expr(a)})'
            return t
        self.fail(e, 'dtype expression')

    def on_zeros(self, name, v):
        if not isinstance(v, ast.Call):
            self.fail(v, 'allocation whose dtype depends on a run-time test')
        fn = ast.unparse(v.func)
        kw = {k.arg: k.value for k in v.keywords}
        if set(kw) - {'dtype'} or len(v.args) not in (1, 2) or (len(v.args) == 2 and 'dtype' in kw):
            self.fail(v, 'allocation arguments')
        dt = kw.get('dtype', v.args[1] if len(v.args) == 2 else None)
        if dt is not None:
            self.bufs[name] = self.dt_expr(dt)
        elif fn == 'np.zeros':
            self.bufs[name] = 'DFloat'
        else:                                   # np.zeros_like(Y): the dtype of Y
            self.bufs[name] = self.tr(v.args[0])

    def stmt(self, s, skip=()):
        if isinstance(s, ast.Return):
            v = s.value
            self.ret_keys = [ast.unparse(e) for e in (v.elts if isinstance(v, ast.Tuple) else [v])]
        return super().stmt(s, skip)

    def stores(self, name):
        return '[' + '; '.join(t for _, t in self.arrays[name]) + ']'


DT_HEADER = '''(* GENERATED by tools/gen_C07.py (gen_lindtype) from {src} -- do not edit *)
From Coq Require Import List.
From Pymoto Require Import Model.LinDtype.
Import ListNotations.
'''


def gen_lindtype(repo):
    """dtype reading of SystemOfEquations._response and StaticCondensation._response"""
    tree, _ = parse_file(os.path.join(repo, 'pymoto/modules/linalg.py'))
    out = [DT_HEADER.format(src='pymoto/modules/linalg.py')]
    c = find_class(tree, 'SystemOfEquations')
    fn = find_func(c, '_response')
    if [a.arg for a in fn.args.args] != ['self', 'A', 'bf', 'xp']:
        raise Unsupported('T-dtype(C07): signature of SystemOfEquations._response changed')
    em = DtEmitter({'A': 'dA', 'bf': 'dBf', 'xp': 'dXp'})
    ret = None
    for s in fn.body:
        r = em.stmt(s, SOE_SKIP)
        if r is not None:
            ret = r
    if ret is None or len(ret) != 2 or em.inner_mat is None or any(k not in em.arrays for k in em.ret_keys):
        raise Unsupported('T-dtype(C07): SystemOfEquations._response does not return two filled zero arrays')
    kx, kb = em.ret_keys
    sig = '(sol : dtype -> dtype -> dtype) (dA dBf dXp : dtype)'
    out.append(f'Definition gen_soe_x_buf {sig} : dtype :=\n  {ret[0]}.\n')
    out.append(f'Definition gen_soe_b_buf {sig} : dtype :=\n  {ret[1]}.\n')
    out.append(f'Definition gen_soe_x_stores {sig} : list dtype :=\n  {em.stores(kx)}.\n')
    out.append(f'Definition gen_soe_b_stores {sig} : list dtype :=\n  {em.stores(kb)}.\n')
    out.append(f'Definition gen_soe_inner {sig} : dtype * dtype :=\n  ({em.inner_mat}, {em.inner_rhs}).\n')

    c = find_class(tree, 'StaticCondensation')
    fn = find_func(c, '_response')
    if [a.arg for a in fn.args.args] != ['self', 'A']:
        raise Unsupported('T-dtype(C07): signature of StaticCondensation._response changed')
    em = DtEmitter({'A': 'dA'})
    ret = None
    for s in fn.body:
        r = em.stmt(s, ['self.n = np.shape(A)[0]'])
        if r is not None:
            ret = r
    if ret is None or len(ret) != 1 or em.inner_mat is None:
        raise Unsupported('T-dtype(C07): StaticCondensation._response')
    sig = '(sol : dtype -> dtype -> dtype) (dA : dtype)'
    out.append(f'Definition gen_sc_out {sig} : dtype :=\n  {ret[0]}.\n')
    out.append(f'Definition gen_sc_inner {sig} : dtype * dtype :=\n  ({em.inner_mat}, {em.inner_rhs}).\n')
    return '\n'.join(out)


# index bookkeeping of SystemOfEquations._response (free / prescribed complement): fingerprinted, it defines the selectors
SOE_SKIP = ['self.n = np.shape(A)[0]', 'self.dim = xp.ndim',
            'if self.f is None:\n    all_dofs = np.arange(self.n)\n    self.f = np.setdiff1d(all_dofs, self.p)',
            'if self.p is None:\n    all_dofs = np.arange(self.n)\n    self.p = np.setdiff1d(all_dofs, self.f)']


def gen_linmods(repo):
    tree, _ = parse_file(os.path.join(repo, 'pymoto/modules/linalg.py'))
    out = [HEADER.format(src='pymoto/modules/linalg.py')]

    # ---------------- SystemOfEquations._response
    c = find_class(tree, 'SystemOfEquations')
    fn = find_func(c, '_response')
    if [a.arg for a in fn.args.args] != ['self', 'A', 'bf', 'xp']:
        raise Unsupported('T-alg(C07): signature of SystemOfEquations._response changed')
    # index bookkeeping (free / prescribed complement): fingerprinted, it defines the selectors
    skip = ['self.n = np.shape(A)[0]', 'self.dim = xp.ndim',
            'if self.f is None:\n    all_dofs = np.arange(self.n)\n    self.f = np.setdiff1d(all_dofs, self.p)',
            'if self.p is None:\n    all_dofs = np.arange(self.n)\n    self.p = np.setdiff1d(all_dofs, self.f)']
    present = [ast.unparse(s) for s in fn.body]
    for k in skip:
        if norm(k) not in present:
            raise Unsupported('T-alg(C07): SystemOfEquations._response: expected `' + k.splitlines()[0] + '`')
    em = ModEmitter({'A': 'A', 'bf': 'Bf', 'xp': 'Xp'})
    ret = None
    for s in fn.body:
        r = em.stmt(s, skip)
        if r is not None:
            ret = r
    if ret is None or len(ret) != 2 or em.inner_mat is None:
        raise Unsupported('T-alg(C07): SystemOfEquations._response does not return (x, b)')
    sig = '(M : ringType) (Df Dp : M) (solve_ff : M -> M) (A Bf Xp : M) : M'
    out.append(f'Definition gen_soe_inner_matrix {sig} :=\n  {em.inner_mat}.\n')
    out.append(f'Definition gen_soe_x {sig} :=\n  {ret[0]}.\n')
    out.append(f'Definition gen_soe_b {sig} :=\n  {ret[1]}.\n')
    # the inner module is a LinSolve
    prep = find_func(c, '_prepare')
    if not any(ast.unparse(s).startswith('self.module_LinSolve = LinSolve([Signal(), Signal()], **kwargs)') for s in prep.body):
        raise Unsupported('T-alg(C07): SystemOfEquations._prepare: inner module is not LinSolve([Signal(), Signal()], **kwargs)')

    # ---------------- StaticCondensation._response
    c = find_class(tree, 'StaticCondensation')
    fn = find_func(c, '_response')
    if [a.arg for a in fn.args.args] != ['self', 'A']:
        raise Unsupported('T-alg(C07): signature of StaticCondensation._response changed')
    em = ModEmitter({'A': 'A'})
    ret = None
    for s in fn.body:
        r = em.stmt(s, ['self.n = np.shape(A)[0]'])
        if r is not None:
            ret = r
    if ret is None or len(ret) != 1 or em.inner_mat is None:
        raise Unsupported('T-alg(C07): StaticCondensation._response')
    sig = '(M : ringType) (Dm Df : M) (solve_ff : M -> M) (A : M) : M'
    out.append(f'Definition gen_sc_inner_matrix {sig} :=\n  {em.inner_mat}.\n')
    out.append(f'Definition gen_sc_inner_rhs {sig} :=\n  {em.inner_rhs}.\n')
    out.append(f'Definition gen_sc_Ared {sig} :=\n  {ret[0]}.\n')
    prep = find_func(c, '_prepare')
    src = [ast.unparse(s) for s in prep.body]
    if not any(x.startswith('self.module_LinSolve = LinSolve([Signal(), Signal()], **kwargs)') for x in src) or \
            'self.m = main' not in src or 'self.f = free' not in src:
        raise Unsupported('T-alg(C07): StaticCondensation._prepare changed')

    # ---------------- LinSolve._response: which system is solved; Inverse
    c = find_class(tree, 'LinSolve')
    fn = find_func(c, '_response')
    if [a.arg for a in fn.args.args] != ['self', 'mat', 'rhs']:
        raise Unsupported('T-alg(C07): signature of LinSolve._response changed')
    tail = [ast.unparse(s) for s in fn.body[-4:]]
    want = ['self.solver.update(mat)',
            'x0 = self.u if self.u is not None and np.shape(self.u) == np.shape(rhs) else None',
            'self.u = self.solver.solve(rhs, x0=x0)', 'return self.u']
    if tail != want:
        raise Unsupported('T-alg(C07): LinSolve._response: solve statements changed: ' + repr(tail))
    # default mode of LinearSolver.solve / LDAWrapper.solve is trans='N'
    stree, _ = parse_file(os.path.join(repo, 'pymoto/solvers/solvers.py'))
    for cls in ('LinearSolver', 'LDAWrapper'):
        f = find_func(find_class(stree, cls), 'solve')
        if [a.arg for a in f.args.args] != ['self', 'rhs', 'x0', 'trans'] or [ast.unparse(d) for d in f.args.defaults] != ['None', "'N'"]:
            raise Unsupported(f'T-alg(C07): {cls}.solve signature / defaults changed')
    out.append('Definition gen_linsolve (M : ringType) (solve : trans -> M -> M) (rhs : M) : M :=\n  (solve tN rhs).\n')
    sens = find_func(c, '_sensitivity')
    if "lam = self.solver.solve(dfdv, trans='T')" not in [ast.unparse(s) for s in sens.body]:
        raise Unsupported('T-alg(C07): LinSolve._sensitivity adjoint solve changed')
    out.append('Definition gen_linsolve_adjoint (M : ringType) (solve : trans -> M -> M) (g : M) : M :=\n  (solve tT g).\n')
    c = find_class(tree, 'Inverse')
    fn = find_func(c, '_response')
    body = [ast.unparse(s) for s in fn.body if not (isinstance(s, ast.Expr) and isinstance(s.value, ast.Constant))]
    if [a.arg for a in fn.args.args] != ['self', 'A'] or body != ['return np.linalg.inv(A)']:
        raise Unsupported('T-alg(C07): Inverse._response changed')
    out.append('Definition gen_inverse (M : ringType) (inv : M -> M) (A : M) : M :=\n  (inv A).\n')
    return '\n'.join(out)


if __name__ == '__main__':
    import sys
    print(gen_linmods(sys.argv[1] if len(sys.argv) > 1 else '/repo'))
