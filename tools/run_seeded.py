#!/usr/bin/env python3
"""Run the checks against every kept seeded change (seeded/<id>/patch.diff) in a scratch worktree of /repo and
record the outcome in seeded/RESULTS.json.  Usage: tools/run_seeded.py [id-prefix ...]"""
import json, os, subprocess, sys, tempfile, shutil
ROOT = os.path.dirname(os.path.dirname(os.path.abspath(__file__)))
SEED = os.path.join(ROOT, 'seeded')
res_path = os.path.join(SEED, 'RESULTS.json')
results = json.load(open(res_path)) if os.path.exists(res_path) else {}
sel = sys.argv[1:]
touched = set()
wt = tempfile.mkdtemp(prefix='seeded_wt_', dir='/tmp')
os.rmdir(wt)
subprocess.check_call(['git', '-C', '/repo', 'worktree', 'add', '-q', wt, 'HEAD'])
try:
    for d in sorted(os.listdir(SEED)):
        pd = os.path.join(SEED, d, 'patch.diff')
        if not os.path.exists(pd) or (sel and not any(d.startswith(s) for s in sel)):
            continue
        meta = json.load(open(os.path.join(SEED, d, 'meta.json')))
        touched.add(d)
        pid = meta['property']
        r = subprocess.run(['git', '-C', wt, 'apply', pd], capture_output=True, text=True)
        if r.returncode != 0:
            results[d] = dict(property=pid, applied=False, error=r.stderr[-500:])
            print(d, 'PATCH DOES NOT APPLY')
            continue
        demo = subprocess.run(['/venv/bin/python', '-W', 'ignore', os.path.join(SEED, d, 'demo.py')], capture_output=True, text=True,
                              env=dict(os.environ, PYTHONPATH=wt), cwd=wt)
        out = subprocess.run([os.path.join(ROOT, 'check'), pid, '--tier', 'quick'], capture_output=True, text=True,
                             env=dict(os.environ, VERIF_REPO=wt), cwd=ROOT)
        vio = [l for l in out.stdout.splitlines() if l.startswith('VIOLATION')]
        results[d] = dict(property=pid, applied=True, demo_fails_with_change=demo.returncode != 0, check_exit=out.returncode,
                          detected=out.returncode == 1 and bool(vio), violation_line=vio[0] if vio else None,
                          concrete_input='no-failing-input-found' not in (vio[0] if vio else 'no-failing-input-found'))
        print(d, 'DETECTED' if results[d]['detected'] else 'MISSED', vio[0] if vio else '')
        subprocess.check_call(['git', '-C', wt, 'checkout', '-q', '--', '.'])
        subprocess.run(['git', '-C', wt, 'clean', '-fdq'])
finally:
    subprocess.run(['git', '-C', '/repo', 'worktree', 'remove', '--force', wt])
    shutil.rmtree(wt, ignore_errors=True)
# merge with what other (parallel) runs wrote meanwhile: only the ids this run touched are replaced
import fcntl
with open(res_path + '.lock', 'w') as lk:
    fcntl.flock(lk, fcntl.LOCK_EX)
    cur = json.load(open(res_path)) if os.path.exists(res_path) else {}
    cur.update({k: v for k, v in results.items() if k in touched})
    json.dump(cur, open(res_path, 'w'), indent=1, sort_keys=True)
