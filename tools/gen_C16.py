"""C16 translator (T-real dialect, fail-closed): pymoto/modules/aggregation.py -> Coq text.

Regenerated on every run into coq/gen/C16/AggGen.v and proved equal to the committed hand models
(Model/Agg.v, Model/ActiveSet.v) by coq/bridge/C16/AggBridge.v:

  PNorm / KSFunction / SoftMinMax .aggregation_function  -> gen_pnorm / gen_ks / gen_softminmax  (over R)
  AggScaling.__call__                                     -> gen_scaling_step   (generic over the Num class)
  AggActiveSet.__call__: the two int(...) counts, xrel    -> gen_n_lower / gen_n_upper / gen_xrel (generic FOps)

Local variables (and self.<attr> assigned inside the function) are resolved by substitution, so renaming a
local or splitting an expression over several statements does not change the generated term.  Anything
outside the dialect raises py2coq.Unsupported (reported as a broken tie, never skipped).
"""
import ast, os
from fractions import Fraction
from py2coq import Unsupported, parse_file, find_class, find_func


def _is_warn_only(stmt):
    """`if <cond>: warnings.warn(...)` has no effect on values"""
    if not isinstance(stmt, ast.If) or stmt.orelse:
        return False
    for s in stmt.body:
        if not (isinstance(s, ast.Expr) and isinstance(s.value, ast.Call) and
                ast.unparse(s.value.func) in ('warnings.warn', 'warn')):
            return False
    return True


def _is_doc(stmt):
    return isinstance(stmt, ast.Expr) and isinstance(stmt.value, ast.Constant) and isinstance(stmt.value.value, str)


class RealEmitter:
    """expressions over R; types 'S' (scalar) and 'V' (1-D array = list R)"""

    def __init__(self, env):
        self.env = dict(env)

    def fail(self, n, why=''):
        raise Unsupported(f'T-real: unsupported {type(n).__name__} {why}: {ast.unparse(n)[:120]}')

    def const(self, v):
        if isinstance(v, bool):
            raise Unsupported('bool constant')
        if isinstance(v, int):
            return f'({v})' if v < 0 else str(v)
        if isinstance(v, float):
            f = Fraction(v)
            return f'({f.numerator} / {f.denominator})' if f.denominator != 1 else self.const(f.numerator)
        raise Unsupported(f'constant {v!r}')

    def tr(self, n):
        if isinstance(n, ast.Constant):
            return self.const(n.value), 'S'
        if isinstance(n, ast.Name):
            if n.id in self.env:
                return self.env[n.id]
            self.fail(n, 'unbound name')
        if isinstance(n, ast.Attribute):
            key = ast.unparse(n)
            if key in self.env:
                return self.env[key]
            self.fail(n, 'attribute')
        if isinstance(n, ast.UnaryOp) and isinstance(n.op, ast.USub):
            a, t = self.tr(n.operand)
            if t == 'S':
                return f'(- {a})', 'S'
            self.fail(n)
        if isinstance(n, ast.BinOp):
            a, ta = self.tr(n.left)
            b, tb = self.tr(n.right)
            op = type(n.op)
            sym = {ast.Add: '+', ast.Sub: '-', ast.Mult: '*', ast.Div: '/'}
            if ta == 'S' and tb == 'S':
                if op in sym:
                    return f'({a} {sym[op]} {b})', 'S'
                if op is ast.Pow:
                    return f'(Rpower {a} {b})', 'S'
            if ta == 'V' and tb == 'S':
                if op is ast.Pow:
                    return f'(map (fun v_ => Rpower v_ {b}) {a})', 'V'
                if op in sym:
                    return f'(map (fun v_ => v_ {sym[op]} {b}) {a})', 'V'
            if ta == 'S' and tb == 'V':
                if op is ast.Mult:
                    return f'(rscale {a} {b})', 'V'
                if op in sym:
                    return f'(map (fun v_ => {a} {sym[op]} v_) {b})', 'V'
            if ta == 'V' and tb == 'V' and op is ast.Mult:
                return f'(rmul {a} {b})', 'V'
            self.fail(n, f'operand types {ta}{tb}')
        if isinstance(n, ast.Call) and not n.keywords and len(n.args) == 1:
            f = ast.unparse(n.func)
            a, ta = self.tr(n.args[0])
            table_v = {'np.abs': 'Rabs', 'np.exp': 'exp', 'np.log': 'ln', 'np.sqrt': 'sqrt'}
            if f in table_v:
                return (f'(map {table_v[f]} {a})', 'V') if ta == 'V' else (f'({table_v[f]} {a})', 'S')
            if f == 'np.sum' and ta == 'V':
                return f'(rsum {a})', 'S'
            if f in ('spsp.logsumexp', 'scipy.special.logsumexp', 'logsumexp') and ta == 'V':
                return f'(ln (rsum (map exp {a})))', 'S'     # log(sum(exp(z))); the library shifts by max(z) for range reasons, same real function
            if f in ('spsp.softmax', 'scipy.special.softmax', 'softmax') and ta == 'V':
                return f'(softmax {a})', 'V'
            self.fail(n, 'call')
        self.fail(n)

    def function_value(self, fn):
        """straight-line body: (doc | warn-only if | assignment)* return"""
        for s in fn.body:
            if _is_doc(s) or _is_warn_only(s):
                continue
            if isinstance(s, ast.Assign) and len(s.targets) == 1 and isinstance(s.targets[0], (ast.Name, ast.Attribute)):
                self.env[ast.unparse(s.targets[0])] = self.tr(s.value)
                continue
            if isinstance(s, ast.Return) and s.value is not None:
                return self.tr(s.value)
            raise Unsupported('T-real: statement ' + ast.unparse(s)[:120])
        raise Unsupported('T-real: no return')


class NumEmitter:
    """scalar expressions over the Num class (num_scope)"""

    def __init__(self, env):
        self.env = dict(env)

    def tr(self, n):
        if isinstance(n, ast.Constant) and n.value == 1 and not isinstance(n.value, bool):
            return 'none_'
        if isinstance(n, ast.Constant) and n.value == 0 and not isinstance(n.value, bool):
            return 'nzero'
        key = ast.unparse(n)
        if isinstance(n, (ast.Name, ast.Attribute)) and key in self.env:
            return self.env[key]
        if isinstance(n, ast.BinOp):
            sym = {ast.Add: '+', ast.Sub: '-', ast.Mult: '*', ast.Div: '/'}
            if type(n.op) in sym:
                return f'({self.tr(n.left)} {sym[type(n.op)]} {self.tr(n.right)})'
        raise Unsupported('T-num: ' + ast.unparse(n)[:120])


class FOpsEmitter:
    """scalar float expressions over the FOps signature of Model/ActiveSet.v"""

    def __init__(self, env):
        self.env = dict(env)

    def tr(self, n):
        if isinstance(n, ast.Constant) and not isinstance(n.value, bool) and n.value in (0, 1):
            return '(f1 O)' if n.value == 1 else '(f0 O)'
        key = ast.unparse(n)
        if isinstance(n, (ast.Name, ast.Attribute)) and key in self.env:
            return self.env[key]
        if isinstance(n, ast.BinOp):
            fn = {ast.Sub: 'fsub', ast.Mult: 'fmul', ast.Div: 'fdiv'}
            if type(n.op) in fn:
                return f'({fn[type(n.op)]} O {self.tr(n.left)} {self.tr(n.right)})'
        raise Unsupported('T-fops: ' + ast.unparse(n)[:120])


HEADER = '''(* GENERATED by tools/gen_C16.py from pymoto/modules/aggregation.py -- do not edit *)
From Coq Require Import Reals List ZArith.
From Pymoto Require Import Base.Num Model.Agg Model.ActiveSet.
Import ListNotations.
'''


def gen(repo):
    path = os.path.join(repo, 'pymoto/modules/aggregation.py')
    tree, _ = parse_file(path)
    out = [HEADER, 'Section GenR.\nLocal Open Scope R_scope.']
    # ---- the three aggregation functions
    for cls, name, par in (('PNorm', 'gen_pnorm', 'p'), ('KSFunction', 'gen_ks', 'rho'), ('SoftMinMax', 'gen_softminmax', 'alpha')):
        c = find_class(tree, cls)
        fn = find_func(c, 'aggregation_function')
        args = [a.arg for a in fn.args.args]
        if len(args) != 2 or args[0] != 'self':
            raise Unsupported(f'{cls}.aggregation_function signature')
        # the parameter must be stored unchanged by _prepare:  self.<par> = <par>
        prep = find_func(c, '_prepare')
        stored = [s for s in prep.body if isinstance(s, ast.Assign) and ast.unparse(s.targets[0]) == f'self.{par}']
        if len(stored) != 1 or ast.unparse(stored[0].value) != par:
            raise Unsupported(f'{cls}._prepare does not store {par} unchanged')
        em = RealEmitter({args[1]: ('x', 'V'), f'self.{par}': (par, 'S')})
        e, t = em.function_value(fn)
        if t != 'S':
            raise Unsupported(f'{cls}.aggregation_function does not return a scalar')
        out.append(f'Definition {name} ({par} : R) (x : list R) : R :=\n  {e}.\n')
    out.append('End GenR.\n')

    # ---- AggScaling.__call__
    c = find_class(tree, 'AggScaling')
    fn = find_func(c, '__call__')
    args = [a.arg for a in fn.args.args]
    if len(args) != 3:
        raise Unsupported('AggScaling.__call__ signature')
    em = NumEmitter({args[2]: 'approx', 'self.damping': 'd'})
    branches = None
    ret = None
    for s in fn.body:
        if _is_doc(s):
            continue
        if isinstance(s, ast.Assign) and len(s.targets) == 1 and isinstance(s.targets[0], ast.Name):
            if ast.unparse(s.value) == f'self.f({args[1]})':
                em.env[s.targets[0].id] = 'trueval'
            else:
                em.env[s.targets[0].id] = em.tr(s.value)
            continue
        if isinstance(s, ast.If) and ast.unparse(s.test) == 'self.sf is None' and branches is None:
            def single(body):
                if len(body) != 1 or not isinstance(body[0], ast.Assign) or ast.unparse(body[0].targets[0]) != 'self.sf':
                    raise Unsupported('AggScaling.__call__ branch')
                return body[0].value
            none_e = em.tr(single(s.body))
            em2 = NumEmitter(dict(em.env, **{'self.sf': 's'}))
            some_e = em2.tr(single(s.orelse))
            branches = (none_e, some_e)
            continue
        if isinstance(s, ast.Return) and ast.unparse(s.value) == 'self.sf' and branches is not None:
            ret = True
            continue
        raise Unsupported('AggScaling.__call__ statement ' + ast.unparse(s)[:120])
    if not ret:
        raise Unsupported('AggScaling.__call__ shape')
    out.append('Section GenNum.\nContext {K : Type} `{Num K}.\nLocal Open Scope num_scope.\n'
               'Definition gen_scaling_step (d : K) (sf : option K) (trueval approx : K) : K :=\n'
               f'  match sf with\n  | None => {branches[0]}\n  | Some s => {branches[1]}\n  end.\nEnd GenNum.\n')
    # which: min / max
    init = find_func(c, '__init__')
    src = ast.unparse(init)
    if "which.lower() == 'min'" not in src or 'self.f = np.min' not in src or "which.lower() == 'max'" not in src \
            or 'self.f = np.max' not in src or 'self.sf = None' not in src or 'self.damping = damping' not in src:
        raise Unsupported('AggScaling.__init__ changed')
    body = [s for s in init.body if isinstance(s, ast.If)]
    if len(body) != 1 or ast.unparse(body[0].body[0]) != 'self.f = np.min' or \
            ast.unparse(body[0].orelse[0].body[0]) != 'self.f = np.max':
        raise Unsupported('AggScaling.__init__ min/max table changed')

    # ---- AggActiveSet.__call__: counts and xrel
    c = find_class(tree, 'AggActiveSet')
    fn = find_func(c, '__call__')
    xname = fn.args.args[1].arg
    # the two count assignments  <name> = <integer expression containing int(...)>; the WHOLE right-hand side is translated
    cnt = [s for s in ast.walk(fn) if isinstance(s, ast.Assign) and
           any(isinstance(n, ast.Call) and ast.unparse(n.func) == 'int' for n in ast.walk(s.value))]
    cnt.sort(key=lambda n: (n.lineno, n.col_offset))
    if len(cnt) != 2:
        raise Unsupported('AggActiveSet.__call__: expected exactly two count assignments containing int(...)')
    env = {f'{xname}.size': '(fofZ O size)', 'self.lower_amt': 'la', 'self.upper_amt': 'ua'}
    out.append('Section GenF.\nContext {K : Type} (O : FOps K).\n')

    def ztr(n):
        if isinstance(n, ast.Call) and ast.unparse(n.func) == 'int' and len(n.args) == 1 and not n.keywords:
            return f'(ftrunc O {FOpsEmitter(env).tr(n.args[0])})'
        if isinstance(n, ast.Constant) and isinstance(n.value, int) and not isinstance(n.value, bool):
            return f'({n.value})%Z'
        if isinstance(n, ast.BinOp) and type(n.op) in (ast.Add, ast.Sub, ast.Mult):
            o = {ast.Add: 'Z.add', ast.Sub: 'Z.sub', ast.Mult: 'Z.mul'}[type(n.op)]
            return f'({o} {ztr(n.left)} {ztr(n.right)})'
        raise Unsupported('T-fops count: ' + ast.unparse(n)[:120])
    names = []
    for name, node in (('gen_n_lower', cnt[0]), ('gen_n_upper', cnt[1])):
        out.append(f'Definition {name} (la ua : K) (size : Z) : Z :=\n  {ztr(node.value)}.\n')
        names.append(ast.unparse(node.targets[0]))
    # the counts must be used unchanged in the two slices  i_sort[:n_lo]  and  i_sort[-n_hi:]
    slices = [ast.unparse(n.slice) for n in ast.walk(fn) if isinstance(n, ast.Subscript) and isinstance(n.slice, ast.Slice)]
    if slices != [f':{names[0]}', f'-{names[1]}:']:
        raise Unsupported('AggActiveSet.__call__: slices changed: ' + repr(slices))
    xrel = [s for s in ast.walk(fn) if isinstance(s, ast.Assign) and isinstance(s.value, ast.BinOp)
            and isinstance(s.value.op, ast.Div) and xname in [n.id for n in ast.walk(s.value) if isinstance(n, ast.Name)]]
    if len(xrel) != 1:
        raise Unsupported('AggActiveSet.__call__: normalisation statement not found')
    mm = [s for s in fn.body if isinstance(s, ast.Assign) and ast.unparse(s.value) == f'(np.min({xname}), np.max({xname}))']
    if len(mm) != 1 or not isinstance(mm[0].targets[0], ast.Tuple):
        raise Unsupported('AggActiveSet.__call__: xmin, xmax = np.min(x), np.max(x) not found')
    mn, mx = [t.id for t in mm[0].targets[0].elts]
    e = FOpsEmitter({xname: 'v', mn: 'xmin', mx: 'xmax'}).tr(xrel[0].value)
    out.append(f'Definition gen_xrel (xmin xmax v : K) : K :=\n  {e}.\n')
    # the two value tests:  <xrel> >= self.lower_rel  and  <xrel> <= self.upper_rel
    xr_name = ast.unparse(xrel[0].targets[0])
    cmps = [(type(n.ops[0]).__name__, ast.unparse(n.left), ast.unparse(n.comparators[0])) for n in ast.walk(fn)
            if isinstance(n, ast.Compare) and len(n.ops) == 1 and ast.unparse(n.comparators[0]) in ('self.lower_rel', 'self.upper_rel')
            and ast.unparse(n.left) == xr_name]
    cmps.sort(key=lambda t: t[2])
    if cmps != [('GtE', xr_name, 'self.lower_rel'), ('LtE', xr_name, 'self.upper_rel')]:
        raise Unsupported('AggActiveSet.__call__: value tests changed: ' + repr(cmps))
    # the shortcut test and the guards, as text (their structure is compared literally)
    tests = [ast.unparse(s.test) for s in ast.walk(fn) if isinstance(s, ast.If)]
    expect = [f'{mx} - {mn} == 0', 'self.lower_rel > 0', 'self.upper_rel < 1', 'self.lower_amt > 0', 'self.upper_amt < 1']
    if tests[:5] != expect or len(tests) != 6 or not tests[5].endswith('> 0'):
        raise Unsupported('AggActiveSet.__call__: guards changed: ' + repr(tests))
    out.append('End GenF.\n')
    return '\n'.join(out)


if __name__ == '__main__':
    import sys
    print(gen(sys.argv[1] if len(sys.argv) > 1 else '/repo'))
