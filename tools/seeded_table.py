#!/usr/bin/env python3
"""rewrite the block between <!-- SEEDED-TABLE-BEGIN --> and <!-- SEEDED-TABLE-END --> of DESIGN.md from
seeded/*/meta.json and seeded/RESULTS.json"""
import json, os, re
ROOT = os.path.dirname(os.path.dirname(os.path.abspath(__file__)))
res = json.load(open(os.path.join(ROOT, 'seeded', 'RESULTS.json')))
rows = ['| id | what the change does (needs) | caught by `./check` | replay kind |', '|---|---|---|---|']
tot = det = 0
for d in sorted(os.listdir(os.path.join(ROOT, 'seeded')), key=lambda s: (s.split('-')[0], int(s.split('-m')[1]) if '-m' in s else 0)):
    mp = os.path.join(ROOT, 'seeded', d, 'meta.json')
    if not os.path.exists(mp):
        continue
    m = json.load(open(mp))
    r = res.get(d, {})
    summ = re.sub(r'\s+', ' ', str(m.get('summary', '')))[:230]
    needs = re.sub(r'\s+', ' ', str(m.get('needs', '')))[:170]
    tot += 1
    if r.get('detected'):
        det += 1
    how = r.get('caught_by', '')
    rows.append(f"| {d} | {summ} (needs: {needs}) | {'**yes**' if r.get('detected') else ('MISSED' if r else 'not run')}{(' – ' + how) if how else ''} | "
                f"{'concrete failing input' if r.get('concrete_input') and r.get('detected') else ('no-failing-input-found' if r.get('detected') else '–')} |")
rows.append('')
rows.append(f'Detected {det} of {tot} kept seeded changes (last run of `tools/run_seeded.py`).')
p = os.path.join(ROOT, 'DESIGN.md')
s = open(p).read()
s = re.sub(r'(<!-- SEEDED-TABLE-BEGIN -->\n).*?(<!-- SEEDED-TABLE-END -->)', lambda mm: mm.group(1) + '\n'.join(rows).replace('\\', '\\\\') + '\n' + mm.group(2), s, flags=re.S)
open(p, 'w').write(s)
print(det, '/', tot)
